(* oracle for the codec model. Protocol: see notes/codec-format.md
   enc <tree> -> ok <hex> | toobig <hex> | err
   dec <cid> <hex> -> ok <tree> | err
   rt <tree> -> ok <hex> <tree> <hex> | err
   tojson <tree> -> ok|badtext <canonical JSON of Json.to_json> | err
   jsonrt <tree> -> ok|badtext <tree after Json.of_json (Json.to_json v)> | err
   (first word ok iff Json.text_ok; the value is in the domain of C01_json_roundtrip iff also `rt` says ok)
   merge <tree0>;<tree> -> ok <tree of Readings.merge_into tree0 tree>   (what UnmarshalBinary leaves in a used receiver)
   c01 <tree> -> <rt answer> TAB <tojson answer> TAB <jsonrt answer>   (the tree is parsed once)
   canonical JSON text: null true false; integers in decimal; strings as "<hex of the UTF-8 bytes>";
   [a,b]; {Name:value,...} with the member names bare, in document order *)
open Model

let rec pos_of_int (n:int) : positive =
  if n = 1 then XH else if n land 1 = 0 then XO (pos_of_int (n lsr 1)) else XI (pos_of_int (n lsr 1))
let n_of_int (n:int) : n = if n = 0 then N0 else Npos (pos_of_int n)
let rec int_of_pos = function XH -> 1 | XO p -> 2 * int_of_pos p | XI p -> 2 * int_of_pos p + 1
let int_of_n = function N0 -> 0 | Npos p -> int_of_pos p

(* decimal strings <-> N for numbers up to 2^64 (beyond OCaml int): go through Int64 unsigned *)
let n_of_dec (s:String.t) : n =
  if String.length s <= 17 then n_of_int (int_of_string s) else
  (* schoolbook: acc*10 + d using N arithmetic from the model *)
  let ten = n_of_int 10 in
  let acc = ref N0 in
  String.iter (fun ch -> acc := N.add (N.mul !acc ten) (n_of_int (Char.code ch - 48))) s; !acc
let dec_of_n (x:n) : String.t =
  if x = N0 then "0" else begin
    let ten = n_of_int 10 in
    let b = Buffer.create 20 in
    let cur = ref x in
    let digits = ref [] in
    while !cur <> N0 do
      let q = N.div !cur ten in
      let r = N.sub !cur (N.mul q ten) in
      digits := (int_of_n r) :: !digits; cur := q
    done;
    List.iter (fun d -> Buffer.add_char b (Char.chr (48 + d))) !digits; Buffer.contents b end

let hexdigits = "0123456789abcdef"
let hex_of_bytes (l : n list) : String.t =
  let b = Buffer.create 64 in
  List.iter (fun x -> let v = int_of_n x in
              if v > 255 then Buffer.add_string b (Printf.sprintf "%02x" v)
              else (Buffer.add_char b hexdigits.[v lsr 4]; Buffer.add_char b hexdigits.[v land 15])) l;
  Buffer.contents b
let byte_table : n array = Array.init 256 n_of_int
let hexval c = match c with
  | '0'..'9' -> Char.code c - 48 | 'a'..'f' -> Char.code c - 87 | 'A'..'F' -> Char.code c - 55
  | _ -> failwith "hex"
let bytes_of_hex (s:String.t) : n list =
  let n = String.length s / 2 in
  let rec go i acc = if i < 0 then acc else go (i-1) (byte_table.(16 * hexval s.[2*i] + hexval s.[2*i+1]) :: acc) in
  go (n-1) []

(* ---- tokenizer / parser for trees ---- *)
type tok = LP | RP | Atom of String.t
let tokenize (s:String.t) : tok list =
  let n = String.length s in
  let rec go i acc =
    if i >= n then List.rev acc
    else match s.[i] with
      | ' ' -> go (i+1) acc
      | '(' -> go (i+1) (LP :: acc)
      | ')' -> go (i+1) (RP :: acc)
      | _ -> let j = ref i in
        while !j < n && s.[!j] <> ' ' && s.[!j] <> '(' && s.[!j] <> ')' do incr j done;
        go !j (Atom (String.sub s i (!j - i)) :: acc) in
  go 0 []

exception Parse of String.t
let strip_x a = if String.length a > 0 && a.[0] = 'x' then String.sub a 1 (String.length a - 1) else raise (Parse "hex")
let rec parse_value (ts : tok list) : value * tok list =
  match ts with
  | LP :: Atom "N" :: Atom d :: RP :: r -> (VNum (n_of_dec d), r)
  | LP :: Atom "B" :: Atom h :: RP :: r -> (VBytes (bytes_of_hex (strip_x h)), r)
  | LP :: Atom "A" :: Atom nb :: Atom h :: RP :: r -> (VBitArr (n_of_dec nb, bytes_of_hex (strip_x h)), r)
  | LP :: Atom "U" :: r ->
    let rec nums ts acc = match ts with
      | RP :: r -> (List.rev acc, r)
      | Atom d :: r -> nums r (n_of_dec d :: acc)
      | _ -> raise (Parse "U") in
    let (ns, r) = nums r [] in (VNums ns, r)
  | LP :: Atom "S" :: Atom cid :: LP :: r ->
    let (fs, r) = parse_list r in
    (match r with
     | LP :: r -> let (ss, r) = parse_list r in
       (match r with
        | RP :: r ->
          let msg = cid.[0] = 'M' in
          let tid = n_of_dec (String.sub cid 1 (String.length cid - 1)) in
          (VStruct (msg, tid, fs, ss), r)
        | _ -> raise (Parse "S end"))
     | _ -> raise (Parse "S subs"))
  | LP :: Atom "O" :: RP :: r -> (VOpt None, r)
  | LP :: Atom "O" :: r -> let (v, r) = parse_value r in
    (match r with RP :: r -> (VOpt (Some v), r) | _ -> raise (Parse "O"))
  | LP :: Atom "L" :: r -> let (l, r) = parse_list r in (VList l, r)
  | _ -> raise (Parse "value")
and parse_list (ts : tok list) : value list * tok list =
  match ts with
  | RP :: r -> ([], r)
  | _ -> let (v, r) = parse_value ts in let (l, r) = parse_list r in (v :: l, r)

let rec print_value (b:Buffer.t) (v:value) : unit =
  match v with
  | VNum x -> Buffer.add_string b ("(N " ^ dec_of_n x ^ ")")
  | VBytes l -> Buffer.add_string b ("(B x" ^ hex_of_bytes l ^ ")")
  | VBitArr (nb, l) -> Buffer.add_string b ("(A " ^ dec_of_n nb ^ " x" ^ hex_of_bytes l ^ ")")
  | VNums ns -> Buffer.add_string b "(U"; List.iter (fun x -> Buffer.add_string b (" " ^ dec_of_n x)) ns; Buffer.add_string b ")"
  | VStruct (msg, tid, fs, ss) ->
    Buffer.add_string b ("(S " ^ (if msg then "M" else "P") ^ dec_of_n tid ^ " (");
    print_list b fs; Buffer.add_string b ") ("; print_list b ss; Buffer.add_string b "))"
  | VOpt None -> Buffer.add_string b "(O)"
  | VOpt (Some x) -> Buffer.add_string b "(O "; print_value b x; Buffer.add_string b ")"
  | VList l -> Buffer.add_string b "(L"; List.iter (fun x -> Buffer.add_char b ' '; print_value b x) l; Buffer.add_string b ")"
and print_list b l =
  let first = ref true in
  List.iter (fun x -> if not !first then Buffer.add_char b ' '; first := false; print_value b x) l

(* ---- JSON trees -> canonical text ---- *)
let ostring_of_coq (s : Model.string) : String.t =
  let b = Buffer.create 32 in
  let bit x k = if x then k else 0 in
  let rec go = function
    | EmptyString -> ()
    | String (Ascii (b0,b1,b2,b3,b4,b5,b6,b7), r) ->
      Buffer.add_char b (Char.chr (bit b0 1 + bit b1 2 + bit b2 4 + bit b3 8 + bit b4 16 + bit b5 32 + bit b6 64 + bit b7 128));
      go r in
  go s; Buffer.contents b

let dec_of_z (z : z) : String.t =
  match z with
  | Z0 -> "0"
  | Zpos p -> dec_of_n (Npos p)
  | Zneg p -> "-" ^ dec_of_n (Npos p)

let rec print_json (b:Buffer.t) (j:json) : unit =
  match j with
  | JNull -> Buffer.add_string b "null"
  | JBool true -> Buffer.add_string b "true"
  | JBool false -> Buffer.add_string b "false"
  | JNum z -> Buffer.add_string b (dec_of_z z)
  | JStr bs -> Buffer.add_char b '"'; Buffer.add_string b (hex_of_bytes bs); Buffer.add_char b '"'
  | JArr l ->
    Buffer.add_char b '[';
    List.iteri (fun i x -> if i > 0 then Buffer.add_char b ','; print_json b x) l;
    Buffer.add_char b ']'
  | JObj m ->
    Buffer.add_char b '{';
    List.iteri (fun i (k, x) -> if i > 0 then Buffer.add_char b ',';
                 Buffer.add_string b (ostring_of_coq k); Buffer.add_char b ':'; print_json b x) m;
    Buffer.add_char b '}'

let json_string j = let b = Buffer.create 256 in print_json b j; Buffer.contents b

let tree_string v = let b = Buffer.create 256 in print_value b v; Buffer.contents b

let fuel = let rec mk n = if n = 0 then O else S (mk (n-1)) in mk 64

let cid_of (s:String.t) = (s.[0] = 'M', n_of_dec (String.sub s 1 (String.length s - 1)))

(* first word of an answer: "ok" iff the value lies in the domain of the C01/C02 theorems
   (wfvb, proved sound for Wf.wfv); "toobig" when a TLV's size does not fit 16 bits;
   "notwf" for any other reason *)
let status v = if wfvb llrp_table v then "ok " else if fits llrp_table v then "notwf " else "toobig "

(* text fields hold valid UTF-8?  (the value is in the domain of C01_json_roundtrip iff, in addition,
   `rt` answers ok, i.e. wfvb holds) *)
let jstatus v = if text_ok llrp_jtable v then "ok " else "badtext "

let answer_rt v =
  match v, encode llrp_table v with
  | VStruct (msg, tid, _, _), Some bs ->
    (match decode llrp_table fuel msg tid bs with
     | None -> "err decode " ^ hex_of_bytes bs
     | Some v2 ->
       (match encode llrp_table v2 with
        | None -> "err reencode"
        | Some bs2 -> (status v) ^ hex_of_bytes bs ^ " " ^ tree_string v2 ^ " " ^ hex_of_bytes bs2))
  | _, _ -> "err"

let answer_tojson v =
  match to_json llrp_jtable v with
  | None -> "err"
  | Some j -> (jstatus v) ^ json_string j

let answer_jsonrt v =
  match json_roundtrip_of llrp_jtable v with
  | None -> "err"
  | Some v2 -> (jstatus v) ^ tree_string v2

let handle (line:String.t) : String.t =
  let line = String.trim line in
  if line = "" then "" else
  let sp = try String.index line ' ' with Not_found -> String.length line in
  let cmd = String.sub line 0 sp in
  let rest = if sp < String.length line then String.sub line (sp+1) (String.length line - sp - 1) else "" in
  try
    match cmd with
    | "enc" ->
      let (v, _) = parse_value (tokenize rest) in
      (match encode llrp_table v with
       | None -> "err"
       | Some bs -> (status v) ^ hex_of_bytes bs)
    | "dec" ->
      let sp2 = String.index rest ' ' in
      let (msg, tid) = cid_of (String.sub rest 0 sp2) in
      let hex = String.trim (String.sub rest (sp2+1) (String.length rest - sp2 - 1)) in
      (match decode llrp_table fuel msg tid (bytes_of_hex hex) with
       | None -> "err"
       | Some v -> "ok " ^ tree_string v)
    | "c01" ->
      (* rt, tojson and jsonrt of one tree, parsed once; answers separated by tabs *)
      let (v, _) = parse_value (tokenize rest) in
      let st = jstatus v in
      (match v, to_json llrp_jtable v with
       | VStruct (msg, tid, _, _), Some j ->
         let a3 = (match of_json llrp_jtable msg tid j with Some v2 -> st ^ tree_string v2 | None -> "err") in
         String.concat "\t" [answer_rt v; st ^ json_string j; a3]
       | _, _ -> String.concat "\t" [answer_rt v; "err"; "err"])
    | "rt" ->
      let (v, _) = parse_value (tokenize rest) in
      answer_rt v
    | "merge" ->
      (* merge <tree0>;<tree>: Readings.merge_into — what UnmarshalBinary of tree's encoding leaves in a receiver holding tree0 *)
      let k = String.index rest ';' in
      let (o, _) = parse_value (tokenize (String.trim (String.sub rest 0 k))) in
      let (n, _) = parse_value (tokenize (String.trim (String.sub rest (k+1) (String.length rest - k - 1)))) in
      "ok " ^ tree_string (merge_into llrp_table fuel o n)
    | "tojson" ->
      let (v, _) = parse_value (tokenize rest) in
      answer_tojson v
    | "jsonrt" ->
      let (v, _) = parse_value (tokenize rest) in
      answer_jsonrt v
    | _ -> "error bad request"
  with Parse m -> "error parse " ^ m | Not_found -> "error bad request" | Failure m -> "error " ^ m | Invalid_argument m -> "error " ^ m

let () =
  try
    while true do
      let line = input_line stdin in
      let a = handle line in
      if a <> "" then print_endline a
    done
  with End_of_file -> ()
