From Coq Require Import ExtrOcamlBasic NArith.
From LLRP Require Import Client.Negotiate.
Extraction Language OCaml.
Extraction "model.ml" strict_query session_t session_kd negotiate_kd held session_post post_run session_ka session negotiate_ka negotiate stamp new_message ack_message conforming cfg_today reader_ver.
