(* line protocol (one session per line):
     <prestamp 0|1> <override 0|1> <cmax>[T] <k1> <k2> <r1> <r2> [<later> ...]
   cmax followed by T: the client has a timeout
   override 0|1 followed by s: the repaired reading of the query's reply (Negotiate.strict_query:
            ERROR_MESSAGE/Success is an unexpected response, not a 1.0.1-only reader)
   k1 / k2: number of KEEPALIVEs the reader sends while the query / the switch is unanswered
            (acknowledged at once); written <k>+<d> when d more are sent by a reader that does not
            read from then until the client has acted on the answer that follows them
   reaction  r ::= R:<cb>:<mb>:<st> | E:<st> | W:<typ> | O | G | N      arriving in time
                 | S                         never answered (the link may stay alive)
                 | L:<cb>:<mb>:<st>          the response arrives later than any client timeout allows
   later     l ::= Q<typ>:<hexpayload or empty>    a request is written
                 | A                               a KEEPALIVE is acknowledged
                 | RS | RX:<st> | RE:<st> | RW:<typ> | RN
                                                   the answer the caller of the last request gets: success, status st
                                                   in the expected response / in an ERROR_MESSAGE, wrong type, none
   answer:   <proceeds|fails|waits> <version> <neg frames> <later frames>
             (later frames: what was left over from negotiation, then the traffic)
   frames ::= - | f,f,...   with f = <ver>:<typ>:<hex payload> *)
open Model

let rec pos_of_int (n:int) : positive =
  if n = 1 then XH else if n land 1 = 0 then XO (pos_of_int (n lsr 1)) else XI (pos_of_int (n lsr 1))
let n_of_int (n:int) : n = if n = 0 then N0 else Npos (pos_of_int n)
let rec int_of_pos = function XH -> 1 | XO p -> 2 * int_of_pos p | XI p -> 2 * int_of_pos p + 1
let int_of_n = function N0 -> 0 | Npos p -> int_of_pos p
let ni s = n_of_int (int_of_string s)

let bytes_of_hex s =
  let n = String.length s / 2 in
  List.init n (fun i -> n_of_int (int_of_string ("0x" ^ String.sub s (2 * i) 2)))

let reaction s =
  match String.split_on_char ':' s with
  | ["R"; cb; mb; st] -> Resp (ni cb, ni mb, ni st)
  | ["E"; st] -> ErrMsg (ni st)
  | ["W"; t] -> WrongType (ni t)
  | ["O"] -> Oversize
  | ["G"] -> Garbage
  | ["N"] -> NoReply
  | _ -> failwith ("bad reaction " ^ s)

let timed s =
  if s = "S" then (Never, NoReply)
  else if String.length s > 1 && s.[0] = 'L' then
    (AfterGivingUp, reaction ("R" ^ String.sub s 1 (String.length s - 1)))
  else (InTime, reaction s)

let later s =
  if s = "A" then PKeepAlive
  else if s = "RS" then PAnswer AnsSuccess
  else if s = "RN" then PAnswer AnsNone
  else if String.length s > 1 && s.[0] = 'R' then
    (match String.split_on_char ':' s with
     | ["RX"; st] -> PAnswer (AnsStatus (false, ni st))
     | ["RE"; st] -> PAnswer (AnsStatus (true, ni st))
     | ["RW"; t] -> PAnswer (AnsWrongType (ni t))
     | _ -> failwith ("bad later " ^ s))
  else if String.length s > 1 && s.[0] = 'Q' then
    (match String.split_on_char ':' (String.sub s 1 (String.length s - 1)) with
     | [t; hex] -> PRequest (ni t, bytes_of_hex hex)
     | [t] -> PRequest (ni t, [])
     | _ -> failwith ("bad later " ^ s))
  else failwith ("bad later " ^ s)

let show_frame f =
  Printf.sprintf "%d:%d:%s" (int_of_n f.m_ver) (int_of_n f.m_typ)
    (String.concat "" (List.map (fun b -> Printf.sprintf "%02x" (int_of_n b)) f.m_payload))
let show_frames = function [] -> "-" | l -> String.concat "," (List.map show_frame l)

let () =
  try
    while true do
      let line = String.trim (input_line stdin) in
      if line <> "" then begin
        try
          match String.split_on_char ' ' line with
          | ps :: ov :: cmax :: k1 :: k2 :: r1 :: r2 :: ls ->
            let strict = String.length ov > 1 && ov.[1] = 's' in
            let ov = String.sub ov 0 1 in
            let cfg = { prestamp = (ps = "1"); writer_overrides = (ov = "1") } in
            let rec nat_of_int i = if i <= 0 then O else S (nat_of_int (i - 1)) in
            let kd s = match String.split_on_char '+' s with
              | [k] -> (nat_of_int (int_of_string k), O)
              | [k; d] -> (nat_of_int (int_of_string k), nat_of_int (int_of_string d))
              | _ -> failwith ("bad keep-alive count " ^ s) in
            let (k1, d1) = kd k1 and (k2, d2) = kd k2 in
            let n = String.length cmax in
            let has_timeout = n > 0 && cmax.[n - 1] = 'T' in
            let cmax = if has_timeout then String.sub cmax 0 (n - 1) else cmax in
            let (waits, (r, ps)) = session_t cfg has_timeout (ni cmax) k1 d1 k2 d2
                (let (a, r) = timed r1 in (a, if strict then strict_query r else r)) (timed r2) (List.map later ls) in
            let lf = ps.p_out in
            Printf.printf "%s %d %s %s\n"
              (if waits then "waits" else match r.n_outcome with Proceeds -> "proceeds" | Fails -> "fails")
              (int_of_n r.n_version) (show_frames r.n_frames) (show_frames lf)
          | _ -> print_endline ("error: bad request: " ^ line)
        with Failure m -> print_endline ("error: " ^ m)
      end
    done
  with End_of_file -> ()
