(* C14 oracle: checks/c14.py appends `Definition cases : list cmd := [...]` and the Eval lines
   to this preamble, writes the result to build/gen/c14_cases_<pid>.v and compiles it with
   coqc -Q coq LLRP; the model is evaluated by vm_compute (no extraction). The numbers used to
   label requests are the LLRP message types of spec/doc_commands.json. *)
From Coq Require Import NArith List Bool String Ascii.
From LLRP Require Import Driver.KeepAlive Driver.Commands.
Import ListNotations.
Open Scope N_scope.
Set Printing Depth 10000000.
Set Printing Width 1000000.

Definition render_req (q : request) : list N :=
  match q with
  | GetReaderCapabilities => [1]
  | GetReaderConfig => [2]
  | SetReaderConfig c =>
      match cfg_ka c with
      | Some (t, i) => [3; 1; t; i; cfg_other c]
      | None => [3; 0; 0; 0; cfg_other c]
      end
  | AddROSpec d => [20; d]
  | DeleteROSpec i => [21; i]
  | StartROSpec i => [22; i]
  | StopROSpec i => [23; i]
  | EnableROSpec i => [24; i]
  | DisableROSpec i => [25; i]
  | GetROSpecs => [26]
  | AddAccessSpec d => [40; d]
  | DeleteAccessSpec i => [41; i]
  | EnableAccessSpec i => [42; i]
  | DisableAccessSpec i => [43; i]
  | GetAccessSpecs => [44]
  | CustomMessage v s d => 1023 :: v :: s :: d
  end.
Definition render (o : outcome) : list (list N) :=
  [if failed o then 1 else 0] :: map render_req (sent o).
Definition both (cf : cmd * bool) : list (list (list N)) :=
  let (c, fault) := cf in
  let script := if fault then [AFault] else [] in
  [render (run_reply true script c); render (run_reply false script c)].

(* rounds of concurrent commands: the machine of Driver/Commands.v (mode Private) on the lanes and
   a schedule given by checks/c14.py.  Rows: [7000; caller; device] ++ request for every wire entry in arrival
   order, then [7001; caller; verdicts...] per caller, then [7002; all callers finished?]. *)
Definition conc_render (b : bool) (lanes : list (list job)) (sched : list nat) : list (list N) :=
  let st := conc_exec Private b sched (conc_init lanes) in
  let n := List.length lanes in
  map (fun e => 7000 :: N.of_nat (fst e) :: fst (snd e) :: render_req (snd (snd e))) (c_wire st)
  ++ map (fun i => 7001 :: N.of_nat i :: map (fun f : bool => if f then 1 else 0) (l_results (c_lanes st i))) (seq 0 n)
  ++ [[7002; if conc_finished n st then 1 else 0]].
Definition conc_both (r : list (list job) * list (list nat)) : list (list (list (list N))) :=
  let (lanes, scheds) := r in
  map (fun s => [conc_render true lanes s; conc_render false lanes s]) scheds.
