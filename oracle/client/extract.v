From Coq Require Import ExtrOcamlBasic NArith List.
From LLRP Require Import Client.Types Client.Model Client.Script.
Extraction Language OCaml.
Extraction "model.ml" run_script replay_ok run step init reply_view hdr_bytes acked ka_enqueued ka_dropped
  ack_in_hand caller_result ids_assigned N.of_nat N.to_nat.
