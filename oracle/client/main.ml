(* oracle for the LLRP Client model: runs scripts (same language as
   harness/llrp/client_script_test.go, tokenised by checks/client_common.py) through
   Client/Script.v and prints the model's observations.

   input, one script per line:
     cfg <filter 0|1> <stamp_always 0|1> <version> <ack 0|1> <default-mode|-> <k> (<typ> <mode>)*k ; step ; step ...
     (optional prefix: cfgx <0|1> <the rest as after cfg> — 1: Connect watches the loops' errors while negotiating, Client/ModelX.v)
   modes: none | all | panic | part:<k>
   steps:
     connect nofirst | connect first <frame>          frame = <ver> <typ> <id> <len> <tag> <info>
     psend <frame> [cut <k>]                          info  = o | c <st> | n | v <cur> <mx> <st> | s <code>
     reply <to> <ver> <typ> <len> <tag> <info> [cut <k>]
     send <c> <typ> <len> <tag> <msgid> <ver> <wait 0|1> <gate 0|1>
     shutdown <c> | expect | drain | prest (rest of the frame sent cut before) | cancel <c> | wait <c> | close | pclose | wconn | state | wfail <k> | newclient
   output, one line per script:  obs ; obs ; ... | final-section ; final-section ...
*)
open Model

let rec pos_of_int (n:int) : positive =
  if n = 1 then XH else if n land 1 = 0 then XO (pos_of_int (n lsr 1)) else XI (pos_of_int (n lsr 1))
let n_of_int (n:int) : n = if n = 0 then N0 else Npos (pos_of_int n)
let rec int_of_pos = function XH -> 1 | XO p -> 2 * int_of_pos p | XI p -> 2 * int_of_pos p + 1
let int_of_n = function N0 -> 0 | Npos p -> int_of_pos p
let rec int_of_nat = function O -> 0 | S n -> 1 + int_of_nat n
let rec nat_of_int n = if n <= 0 then O else S (nat_of_int (n - 1))
let ni s = n_of_int (int_of_string s)
let si n = string_of_int (int_of_n n)

let parse_mode s =
  if s = "none" then HBNone else if s = "all" then HBAll else if s = "panic" then HBPanic
  else match String.split_on_char ':' s with
    | ["part"; k] -> HBPart (ni k)
    | _ -> failwith ("bad mode " ^ s)

(* returns (info, rest) *)
let parse_info = function
  | "o" :: r -> (IOpaque, r)
  | "n" :: r -> (INoConn, r)
  | "c" :: st :: r -> (IConn (ni st), r)
  | "s" :: c :: r -> (IStatus (ni c), r)
  | "v" :: a :: b :: c :: r -> (IVer (ni a, ni b, ni c), r)
  | _ -> failwith "bad info"

let parse_frame = function
  | ver :: typ :: id :: len :: tag :: r ->
    let (i, r') = parse_info r in
    ({ f_ver = ni ver; f_typ = ni typ; f_id = ni id; f_len = ni len; f_tag = ni tag; f_info = i }, r')
  | _ -> failwith "bad frame"

let parse_step toks =
  match toks with
  | ["connect"; "nofirst"] -> SConnect None
  | "connect" :: "first" :: r -> let (f, _) = parse_frame r in SConnect (Some f)
  | "psend" :: r ->
    let (f, r') = parse_frame r in
    (match r' with
     | ["cut"; k] -> SPeerSend { pf_frame = f; pf_cut = Some (ni k) }
     | _ -> SPeerSend { pf_frame = f; pf_cut = None })
  | "reply" :: to_ :: ver :: typ :: len :: tag :: r ->
    let (i, r') = parse_info r in
    let f = { f_ver = ni ver; f_typ = ni typ; f_id = N0; f_len = ni len; f_tag = ni tag; f_info = i } in
    (match r' with
     | ["cut"; k] -> SReplyCut (nat_of_int (int_of_string to_), f, ni k)
     | _ -> SReply (nat_of_int (int_of_string to_), f))
  | ["send"; c; typ; len; tag; mid; ver; wait; gate] ->
    SSend (ni c, { q_typ = ni typ; q_len = ni len; q_tag = ni tag; q_id = ni mid; q_ver = ni ver;
                   q_wait = (wait = "1"); q_gate = (gate = "1") })
  | ["shutdown"; c] -> SShutdown (ni c)
  | ["expect"] -> SExpectFrame
  | ["drain"] -> SDrain
  | ["cancel"; c] -> SCancel (ni c)
  | ["wait"; c] -> SWaitCaller (ni c)
  | ["close"] -> SClose
  | ["pclose"] -> SPeerClose
  | ["wconn"] -> SWaitConnect
  | ["state"] -> SState
  | ["wfail"; k] -> SWriteFail (ni k)
  | ["newclient"] -> SNewClient
  | ["prest"] -> SPeerRest
  | _ -> failwith ("bad step: " ^ String.concat " " toks)

let rec parse_cfg toks =
  match toks with
  | "cfgx" :: w :: r -> { (parse_cfg ("cfg" :: r)) with sc_watch = (w = "1") }
  | "cfg" :: flt :: sta :: ver :: ack :: def :: k :: r ->
    let k = int_of_string k in
    let rec hs i r acc = if i = 0 then List.rev acc else
        match r with t :: m :: r' -> hs (i - 1) r' ((ni t, parse_mode m) :: acc) | _ -> failwith "bad handlers" in
    let modes = hs k r [] in
    { sc_cfg = { filter_unsolicited = (flt = "1"); stamp_always = (sta = "1"); cfg_version = ni ver; ack_handler = (ack = "1");
                 user_handlers = List.map fst modes; default_handler = (def <> "-") };
      sc_modes = modes;
      sc_default = (if def = "-" then HBNone else parse_mode def);
      sc_watch = false }
  | _ -> failwith "bad cfg"

let b2s b = if b then "1" else "0"
let frame_s (f : frame) = Printf.sprintf "%s %s %s %s %s" (si f.f_ver) (si f.f_typ) (si f.f_id) (si f.f_len) (si f.f_tag)
let oframe_s (o : oframe) =
  frame_s o.o_frame ^ " " ^ (match o.o_src with None -> "-" | Some c -> si c) ^ " " ^
  String.concat "," (List.map si (hdr_bytes o.o_frame))

let result_s = function
  | ROk (_, f) ->
    let ((t, l), g) = reply_view f in
    (* a reply beyond the buffering limit: (typ, nil, nil) before /repo 62a2d82, an error since; the python side accepts either *)
    if int_of_n l = 0 && int_of_n f.f_len <> 0 then Printf.sprintf "oversize %s" (si t)
    else Printf.sprintf "ok %s %s %s" (si t) (si l) (si g)
  | RZero -> "zero" | RSent -> "sent" | RErrClosed -> "closed" | RErrCtx -> "ctx" | RErrOther -> "other"
let cphase_s = function
  | None -> "unknown"
  | Some (Done (_, r)) -> result_s r
  | Some _ -> "blocked"
let lerr_closed = function EClosedW | EClosedR -> true | _ -> false
let phase_s = function
  | PInit -> "notstarted"
  | PReturned CErrClosed -> "closed"
  | PReturned CErrCtx -> "ctx"
  | PReturned (CErrLoop e) -> if lerr_closed e then "closed" else "other"
  | PReturned _ -> "other"
  | _ -> "blocked"
let hb_s = function HBNone -> "none" | HBAll -> "all" | HBPanic -> "panic" | HBPart k -> "part:" ^ si k
let hkind_s = function HAck -> "ack" | HUser -> "typed" | HDefault -> "default" | HDiscard -> "discard"

let obs_s = function
  | ObOk -> "ok" | ObBlocked -> "blocked" | ObNone -> "none" | ObBad -> "bad"
  | ObFrame o -> "frame " ^ oframe_s o
  | ObFrames l -> "frames " ^ String.concat " / " (List.map oframe_s l)
  | ObCaller p -> "caller " ^ cphase_s p
  | ObClose ok -> "close " ^ (if ok then "nil" else "closed")
  | ObConnect p -> "conn " ^ phase_s p
  | ObState (a, w, wr, cl, rd) ->
    Printf.sprintf "state %d %d %s %s %s" (int_of_nat a) (int_of_nat w) (b2s wr) (b2s cl) (b2s rd)
  | ObPeer (c, id) -> "peer " ^ (if c then "ok" else "blocked") ^ " " ^ si id

let split_steps line =
  List.map (fun s -> List.filter (fun t -> t <> "") (String.split_on_char ' ' s))
    (String.split_on_char ';' line)

let () =
  try
    while true do
      let line = input_line stdin in
      if String.trim line <> "" then begin
        try
          match split_steps line with
          | cfgt :: steps ->
            let sc = parse_cfg cfgt in
            let steps = List.map parse_step (List.filter (fun l -> l <> []) steps) in
            let (m, obs) = run_script sc steps in
            let s = m.m_st in
            let sections = [
              "callers " ^ String.concat " , " (List.map (fun (c, p) -> si c ^ " " ^ cphase_s (Some p)) s.callers);
              "conn " ^ phase_s s.phase;
              "handled " ^ String.concat " , " (List.map (fun h ->
                  Printf.sprintf "%d %s %s %s %s %s" (int_of_nat h.h_seq) (frame_s h.h_frame) (hkind_s h.h_kind) (hb_s h.h_hb)
                    (b2s h.h_reply) "") s.handled);
              "delivered " ^ String.concat " , " (List.map (fun ((c, q), f) ->
                  Printf.sprintf "%s %d %s" (si c) (int_of_nat q) (frame_s f)) s.delivered);
              "assigned " ^ String.concat " , " (List.map (fun (c, i) -> si c ^ " " ^ si i) s.assigned);
              "acked " ^ String.concat " " (List.map si (acked s));
              "kaenq " ^ String.concat " " (List.map si (ka_enqueued s));
              "kadrop " ^ String.concat " " (List.map si (ka_dropped s));
              "inhand " ^ String.concat " " (List.map si (ack_in_hand s));
              "ackq " ^ String.concat " " (List.map si s.ackq);
              (* --- added for C08/C09 (extra sections are ignored by client_common.canon_model) --- *)
              "out " ^ String.concat " , " (List.map (fun (o : oframe) -> frame_s o.o_frame ^ " " ^
                                              (match o.o_src with None -> "-" | Some c -> si c)) s.out);
              "nwire " ^ string_of_int (List.length s.wire);
              "errs " ^ String.concat " " (List.map (function EWrite -> "write" | ERead -> "read" | EClosedW -> "closedw" | EClosedR -> "closedr") s.errs);
              "phase " ^ (match s.phase with
                  | PInit -> "init" | PCheckInitial -> "checkinitial"
                  | PNegotiating (st, c) -> "negotiating-" ^ (match st with NGsv -> "gsv" | NSpv -> "spv" | NDone -> "done") ^
                                            (match c with None -> "" | Some _ -> "-waiting")
                  | PReady -> "ready" | PDraining _ -> "draining" | PReturned _ -> "returned");
              "flags " ^ b2s s.ready ^ " " ^ b2s s.closed;
              "closecalls " ^ String.concat " " (List.map b2s s.close_calls);
              (* --- added for the model-in-the-loop walk generator (checks/client_walk.py) --- *)
              "writer " ^ (let fr (o : oframe) = si o.o_frame.f_typ ^ " " ^ si o.o_frame.f_id ^ " " ^ (match o.o_src with None -> "-" | Some c -> si c) in
                           match s.writer with
                           | WNone -> "none" | WTop -> "top" | WInner -> "inner" | WHolding o -> "holding " ^ fr o
                           | WPayload o -> "payload " ^ fr o | WParked -> "parked" | WDead -> "dead" | WExit -> "exit");
              "reader " ^ (match s.reader with
                  | RNone -> "none" | RTop -> "top" | RRead -> "read" | RWaitDone -> "waitdone" | RDead -> "dead" | RExit -> "exit");
              "awaiting " ^ String.concat " , " (List.map (fun (i, c) -> si i ^ " " ^ si c) s.awaiting);
              "peerq " ^ string_of_int (List.length m.m_peerq) ^ " " ^
              (match m.m_peerq with p :: _ -> (match p.pf_cut with Some _ -> "cut" | None -> "whole") | [] -> "-");
              "pclosed " ^ b2s m.m_peer_closed;
              "fail " ^ (match m.m_fail with Some k -> "armed " ^ si k | None -> if m.m_failed then "failed" else "none");
              "cphases " ^ String.concat " , " (List.map (fun (c, p) -> si c ^ " " ^
                  (match p with Gate _ -> "gate" | Queued _ -> "queued" | HasToken (_, i) -> "token:" ^ si i | Done _ -> "done")) s.callers);
              "version " ^ si s.version;
              "nextid " ^ si s.next_id;
              "nevents " ^ string_of_int (List.length m.m_events);
              "replay " ^ (if replay_ok sc m = s then "ok" else "MISMATCH");
              "fuel " ^ (if m.m_fuel_out then "OUT" else "ok");
            ] in
            print_endline (String.concat " ; " (List.map obs_s obs) ^ " | " ^ String.concat " ; " sections)
          | [] -> print_endline "error: empty"
        with Failure msg -> print_endline ("error: " ^ msg)
      end
    done
  with End_of_file -> ()
