(* line protocol (same requests as harness/llrp/c12_test.go):
     types                                       -> message types that carry a status
     x <exp> <act> <code> <desc> <fe> <pe>       -> one outcome line
     r <exp> <act> <lo> <hi> <desc> <fe> <pe>    -> one outcome line per code in [lo,hi)
     hw <negotiated version> <first id> <wire event>... -> Client/StatusWire.v: wresults (ids derived from the order of writes);
          events Q:<exp> | W | A:<id> | N:<ver> | R:... ; answer as for h
     ts <fuel> <k> <exp> <act> <code> <desc> <fe> <pe> -> Client/StatusDriver.v: try_send fuel (k x AClosed ++ [AOutcome (send_for_outcome ...)])
     lim <payload length>                        -> "<limit> intact|toolarge|shortened" (Client/StatusLimit.v, reply_bytes)
     xf <exp> <act>                              -> the outcome when the reply's payload does not decode (DecFail)
     dt <lo> <hi>                                -> per code: which text defaultText picks (table + index)
     h <negotiated version> <event>...           -> the exchange model (Client/StatusExchange.v, xresults): events
          S:<id>:<exp> | A:<id> | N:<ver> | R:<ver>:<typ>:<id>:<code>:<desc>:<fe>:<pe> (payload decodes as decoded_wf status);
          answer: results in order, "<id>=abandoned" or "<id>=<outcome line>", joined by " | " ("-" if none)
   desc: "-" or hex bytes;  fe: "-" or idx.code;  pe: "-" or levels joined by ",",
   level = ptype.code | ptype.code.idx.fcode (outermost first)
   outcome line: <cls> <code> <desc> <fe> <pe> <resp> <in_code> <in_desc> <in_fe> <in_pe>
     cls = nil | status | other ; resp = untouched | decoded | plain | partial *)
open Model

let rec pos_of_int (n:int) : positive =
  if n = 1 then XH else if n land 1 = 0 then XO (pos_of_int (n lsr 1)) else XI (pos_of_int (n lsr 1))
let n_of_int (n:int) : n = if n = 0 then N0 else Npos (pos_of_int n)
let rec int_of_pos = function XH -> 1 | XO p -> 2 * int_of_pos p | XI p -> 2 * int_of_pos p + 1
let int_of_n = function N0 -> 0 | Npos p -> int_of_pos p
let ni s = n_of_int (int_of_string s)

let parse_desc s =
  if s = "-" then [] else
    let n = String.length s / 2 in
    let rec go i acc = if i < 0 then acc else go (i - 1) (n_of_int (int_of_string ("0x" ^ String.sub s (2 * i) 2)) :: acc) in
    go (n - 1) []

let parse_fe s = if s = "-" then None else
    match String.split_on_char '.' s with
    | [i; c] -> Some (FieldErr (ni i, ni c))
    | _ -> failwith "bad fe"

let parse_pe s = if s = "-" then None else
    let levels = List.rev (String.split_on_char ',' s) in   (* innermost first *)
    List.fold_left (fun inner lv ->
        match String.split_on_char '.' lv with
        | [t; c] -> Some (ParamErr (ni t, ni c, inner, None))
        | [t; c; i; fc] -> Some (ParamErr (ni t, ni c, inner, Some (FieldErr (ni i, ni fc))))
        | _ -> failwith "bad pe level") None levels

let buf = Buffer.create 65536
let put_desc d =
  if d = [] then Buffer.add_char buf '-' else
    List.iter (fun b -> Buffer.add_string buf (Printf.sprintf "%02x" (int_of_n b))) d
let put_fe = function
  | None -> Buffer.add_char buf '-'
  | Some (FieldErr (i, c)) -> Buffer.add_string buf (Printf.sprintf "%d.%d" (int_of_n i) (int_of_n c))
let put_pe p =
  match flatten_ope p with
  | [] -> Buffer.add_char buf '-'
  | l -> List.iteri (fun k ((t, c), fe) ->
      if k > 0 then Buffer.add_char buf ',';
      Buffer.add_string buf (Printf.sprintf "%d.%d" (int_of_n t) (int_of_n c));
      (match fe with None -> () | Some (FieldErr (i, fc)) ->
          Buffer.add_string buf (Printf.sprintf ".%d.%d" (int_of_n i) (int_of_n fc)))) l
let put_status c d f p =
  Buffer.add_string buf (string_of_int (int_of_n c)); Buffer.add_char buf ' ';
  put_desc d; Buffer.add_char buf ' '; put_fe f; Buffer.add_char buf ' '; put_pe p

let put_outcome o =
  (match o.out_err with
   | None -> Buffer.add_string buf "nil - - - -"
   | Some (EOther _) -> Buffer.add_string buf "other - - - -"
   | Some (EStatus (c, d, f, p)) -> Buffer.add_string buf "status "; put_status c d f p);
  (match o.out_resp with
   | RespUntouched -> Buffer.add_string buf " untouched - - - -"
   | RespPartial -> Buffer.add_string buf " partial - - - -"
   | RespDecoded None -> Buffer.add_string buf " plain - - - -"
   | RespDecoded (Some s') -> Buffer.add_string buf " decoded ";
     put_status s'.st_code s'.st_desc s'.st_field s'.st_param)

let one exp act code desc fe pe =
  let s = { st_code = code; st_desc = desc; st_field = fe; st_param = pe } in
  let o = send_for_outcome exp act (decoded_wf s) in
  Buffer.clear buf;
  put_outcome o;
  print_endline (Buffer.contents buf)

let parse_event tok =
  match String.split_on_char ':' tok with
  | ["S"; id; e] -> XSend (ni id, ni e)
  | ["A"; id] -> XAbandon (ni id)
  | ["N"; v] -> XNegotiated (ni v)
  | ["R"; v; t; id; c; d; f; p] ->
    let s = { st_code = ni c; st_desc = parse_desc d; st_field = parse_fe f; st_param = parse_pe p } in
    XRecv { fr_ver = ni v; fr_type = ni t; fr_id = ni id; fr_dec = decoded_wf s }
  | _ -> failwith ("bad event " ^ tok)

(* wire-level events (Client/StatusWire.v): Q:<exp> request | W SendNoWait | A:<id> | N:<ver> | R:... frame (as in h) *)
let parse_wevent tok =
  match String.split_on_char ':' tok with
  | ["Q"; e] -> WRequest (ni e)
  | ["W"] -> WNoWait
  | ["A"; id] -> WAbandon (ni id)
  | ["N"; v] -> WNegotiated (ni v)
  | "R" :: _ -> (match parse_event tok with XRecv f -> WFrame f | _ -> failwith "bad frame")
  | _ -> failwith ("bad wire event " ^ tok)

let put_results rs =
  Buffer.clear buf;
  if rs = [] then Buffer.add_char buf '-';
  List.iteri (fun k (id, r) ->
      if k > 0 then Buffer.add_string buf " | ";
      Buffer.add_string buf (string_of_int (int_of_n id)); Buffer.add_char buf '=';
      (match r with
       | XAbandoned -> Buffer.add_string buf "abandoned"
       | XOutcome o -> put_outcome o)) rs;
  print_endline (Buffer.contents buf)

let history v toks =
  let evs = List.map parse_event (List.filter (fun t -> t <> "") toks) in
  let rs = xresults (ni v) evs in
  Buffer.clear buf;
  if rs = [] then Buffer.add_char buf '-';
  List.iteri (fun k (id, r) ->
      if k > 0 then Buffer.add_string buf " | ";
      Buffer.add_string buf (string_of_int (int_of_n id)); Buffer.add_char buf '=';
      (match r with
       | XAbandoned -> Buffer.add_string buf "abandoned"
       | XOutcome o -> put_outcome o)) rs;
  print_endline (Buffer.contents buf)

let () =
  try
    while true do
      let line = input_line stdin in
      (match String.split_on_char ' ' (String.trim line) with
       | ["types"] ->
         print_endline (String.concat " " (List.map (fun t -> string_of_int (int_of_n t)) status_types))
       | ["x"; e; a; c; d; f; p] -> one (ni e) (ni a) (ni c) (parse_desc d) (parse_fe f) (parse_pe p)
       | ["ts"; fuel; k; e; a; c; d; f; p] ->
         (* the device service's exchange: k attempts that find a closed client, then one completed SendFor exchange *)
         let s = { st_code = ni c; st_desc = parse_desc d; st_field = parse_fe f; st_param = parse_pe p } in
         let o = send_for_outcome (ni e) (ni a) (decoded_wf s) in
         let rec nat_of i = if i <= 0 then O else S (nat_of (i - 1)) in
         let rec closed i = if i <= 0 then [AOutcome o] else AClosed :: closed (i - 1) in
         (match try_send (nat_of (int_of_string fuel)) (closed (int_of_string k)) with
          | TSGaveUp -> print_endline "gaveup"
          | TSOutcome o' -> Buffer.clear buf; put_outcome o'; print_endline (Buffer.contents buf))
       | ["lim"; len] ->
         (* Client/StatusLimit.v: what SendFor gets for a complete reply of that payload length *)
         let payload = [n_of_int 1; n_of_int 31] in      (* the payload's content plays no part; its announced length does *)
         print_endline (string_of_int (int_of_n maxBufferedPayloadSz) ^ " " ^
           (match reply_bytes maxBufferedPayloadSz maxBufferedPayloadSz (ni len) payload with
            | DTooLarge -> "toolarge"
            | DBytes b -> if b = payload then "intact" else "shortened"))
       | ["xf"; e; a] ->
         Buffer.clear buf; put_outcome (send_for_outcome (ni e) (ni a) (fun _ -> DecFail)); print_endline (Buffer.contents buf)
       | ["r"; e; a; lo; hi; d; f; p] ->
         let e = ni e and a = ni a and d = parse_desc d and f = parse_fe f and p = parse_pe p in
         for c = int_of_string lo to int_of_string hi - 1 do one e a (n_of_int c) d f p done
       | ["dt"; lo; hi] ->
         for c = int_of_string lo to int_of_string hi - 1 do
           let r = default_text_ref (n_of_int c) in
           let ok = if ref_in_table r then "ok" else "out-of-range" in
           print_endline (ok ^ " " ^ (match r with
             | TSuccess -> "success" | TMsg i -> "msg " ^ string_of_int (int_of_n i)
             | TParam i -> "param " ^ string_of_int (int_of_n i) | TField i -> "field " ^ string_of_int (int_of_n i)
             | TDevice i -> "device " ^ string_of_int (int_of_n i) | TUnknown c -> "unknown " ^ string_of_int (int_of_n c)))
         done
       | "h" :: v :: toks -> history v toks
       | "hw" :: v :: n0 :: toks ->
         put_results (wresults (ni v) (ni n0) (List.map parse_wevent (List.filter (fun t -> t <> "") toks)))
       | [""] -> ()
       | _ -> print_endline ("error: bad request: " ^ line))
    done
  with End_of_file -> ()
