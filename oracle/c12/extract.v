From Coq Require Import ExtrOcamlBasic NArith.
From LLRP Require Import Client.Status Client.StatusExchange Client.StatusDriver Client.StatusWire Client.StatusLimit.
Extraction Language OCaml.
Extraction "model.ml" send_for_outcome status_err decoded_wf status_types is_status_type flatten_ope default_text_ref ref_in_table xresults try_send ts_err wresults reply_bytes MaxBufferedPayloadSz.
