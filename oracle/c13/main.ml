(* line protocol (oracle/c13): one scenario per line
     <id> <ndev> <seed> <step> ...
   steps (device index d = one digit): dR<v> ROAccessReport variant v, dE<v> ReaderEventNotification
   variant v (v=4: a successful ConnectionAttemptEvent in mid-stream), dr<v>/de<v> undecodable
   report/event, dM/dL a large report under/over the 640 KiB buffer limit (over: refused like an undecodable one), dK keep-alive, dC<k> command through the driver.
   Every device first receives the connection event of each of its connections (d+<modes> steps: failing
   connections before the normal one; content 2000+100d+n). dT<k>: a request with a deadline (a Command). The content of step i is i.
   The model is run on these Recv events with publisher completions interleaved at random (seeded),
   then drained. answer: "<n> d:RO:i d:REN:i ..." (sorted) "| pending=<n> expected_ok=<0|1>" *)
open Model

let rec pos_of_int (n:int) : positive =
  if n = 1 then XH else if n land 1 = 0 then XO (pos_of_int (n lsr 1)) else XI (pos_of_int (n lsr 1))
let n_of_int (n:int) : n = if n = 0 then N0 else Npos (pos_of_int n)
let rec int_of_pos = function XH -> 1 | XO p -> 2 * int_of_pos p | XI p -> 2 * int_of_pos p + 1
let int_of_n = function N0 -> 0 | Npos p -> int_of_pos p
let rec nat_of_int n = if n <= 0 then O else S (nat_of_int (n - 1))
let rec int_of_nat = function O -> 0 | S n -> 1 + int_of_nat n

let reading_s ((d, r), c) =
  Printf.sprintf "%d:%s:%d" (int_of_n d) (match r with ResROAccessReport -> "RO" | ResReaderEventNotification -> "REN") (int_of_n c)

let scenario toks =
  match toks with
  | _id :: ndev :: seed :: steps ->
    let ndev = int_of_string ndev in
    Random.init (int_of_string seed);
    let recvs = ref [] in
    (* connection events: one per planned connection (d+<modes>: one failing connection per
       character, then the normal one), content 2000+100d+n *)
    for d = 0 to ndev - 1 do
      let modes = List.fold_left (fun acc st ->
          if String.length st > 2 && st.[1] = '+' && Char.code st.[0] - 48 = d
          then String.sub st 2 (String.length st - 2) else acc) "" steps in
      for n = 0 to String.length modes do
        recvs := Recv (n_of_int d, MReaderEventNotification, Some (n_of_int (2000 + 100 * d + n)), true) :: !recvs
      done
    done;
    List.iteri (fun i st ->
        let d = n_of_int (Char.code st.[0] - 48) in
        let v = if String.length st > 2 then (try int_of_string (String.sub st 2 (String.length st - 2)) with _ -> 0) else 0 in
        let e = match st.[1] with
          | 'R' -> Recv (d, MROAccessReport, Some (n_of_int i), false)
          | 'E' -> Recv (d, MReaderEventNotification, Some (n_of_int i), v = 4)
          | 'M' -> Recv (d, MROAccessReport, Some (n_of_int i), false)
          | 'L' | 'r' -> Recv (d, MROAccessReport, None, false)
          | 'e' -> Recv (d, MReaderEventNotification, None, false)
          | 'K' -> KeepAliveAck d
          | 'C' | 'T' -> Command d
          | '+' -> KeepAliveAck d   (* placeholder: handled above, no effect *)
          | _ -> failwith ("bad step " ^ st) in
        recvs := e :: !recvs) steps;
    let recvs = List.rev !recvs in
    (* interleave publisher completions *)
    let s = ref init in
    let evs = ref [] in
    List.iter (fun e ->
        s := step !s e; evs := e :: !evs;
        while Random.int 3 = 0 && pending !s <> [] do
          let k = Random.int (List.length (pending !s)) in
          let e = PublisherRun (nat_of_int k) in
          s := step !s e; evs := e :: !evs
        done) recvs;
    let dr = drain !s in
    let s2 = run !s dr in
    let pub = List.sort compare (List.map reading_s (published s2)) in
    let exp = List.sort compare (List.map reading_s (expected (List.rev !evs))) in
    Printf.printf "%d %s | pending=%d expected_ok=%s\n" (List.length pub) (String.concat " " pub)
      (List.length (pending s2)) (if pub = exp then "1" else "0")
  | _ -> print_endline "error: bad scenario"

let () =
  try
    while true do
      let line = String.trim (input_line stdin) in
      (match List.filter (fun x -> x <> "") (String.split_on_char ' ' line) with
       | [] -> ()
       | toks -> (try scenario toks with Failure m -> print_endline ("error: " ^ m)));
      flush stdout
    done
  with End_of_file -> ()
