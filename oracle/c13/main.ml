(* line protocol (oracle/c13): one scenario per line
     <id> <ndev> <seed> <step> ...
   steps (device index d = one digit): dR<v> ROAccessReport variant v, dE<v> ReaderEventNotification
   variant v (v=4: a successful ConnectionAttemptEvent in mid-stream), dr<v>/de<v> undecodable
   report/event, dM/dL a large report under/over the 640 KiB buffer limit (over: refused like an undecodable one), dK keep-alive, dC<k> command through the driver.
   Every device first receives the connection event of each of its connections (d+<modes> steps: failing
   connections before the normal one; content 2000+100d+n). dT<k>: a request with a deadline (a Command). d@<p><kind><v>: message sent during connection
   set-up (phase p). dU0/dU1: EdgeX updates the device (same / other address: reconnect, a new connection
   event). dX: outage, reconnect. dZ: the device is removed, its later steps are void. The content of step i is i.
   The model is run on these Recv events with publisher completions interleaved at random (seeded),
   then drained. answer: "<n> d:RO:i d:REN:i ..." (sorted) "| pending=<n> expected_ok=<0|1>" *)
open Model

let rec pos_of_int (n:int) : positive =
  if n = 1 then XH else if n land 1 = 0 then XO (pos_of_int (n lsr 1)) else XI (pos_of_int (n lsr 1))
let n_of_int (n:int) : n = if n = 0 then N0 else Npos (pos_of_int n)
let rec int_of_pos = function XH -> 1 | XO p -> 2 * int_of_pos p | XI p -> 2 * int_of_pos p + 1
let int_of_n = function N0 -> 0 | Npos p -> int_of_pos p
let rec nat_of_int n = if n <= 0 then O else S (nat_of_int (n - 1))
let rec int_of_nat = function O -> 0 | S n -> 1 + int_of_nat n

let reading_s ((d, r), c) =
  Printf.sprintf "%d:%s:%d" (int_of_n d) (match r with ResROAccessReport -> "RO" | ResReaderEventNotification -> "REN") (int_of_n c)

let scenario toks =
  match toks with
  | _id :: ndev :: seed :: steps ->
    let ndev = int_of_string ndev in
    Random.init (int_of_string seed);
    let recvs = ref [] in
    (* connection events: one per planned connection (d+<modes>: one failing connection per
       character, then the normal one), content 2000+100d+n *)
    for d = 0 to ndev - 1 do
      let modes = List.fold_left (fun acc st ->
          if String.length st > 2 && st.[1] = '+' && Char.code st.[0] - 48 = d
          then String.sub st 2 (String.length st - 2) else acc) "" steps in
      for n = 0 to String.length modes do
        (* the first message of connection n: a connection event (successful, or for modes 1-4 one
           that reports a failed attempt, n: an event without ConnectionAttemptEvent), or (o) a report *)
        let m = if n < String.length modes then modes.[n] else ' ' in
        let typ = if m = 'o' then MROAccessReport else MReaderEventNotification in
        let success = not (String.contains "1234no" m) in
        recvs := Recv (n_of_int d, typ, Some (n_of_int (2000 + 100 * d + n)), success) :: !recvs
      done
    done;
    let nconn = Array.make 10 0 in
    for d = 0 to ndev - 1 do
      let modes = List.fold_left (fun acc st ->
          if String.length st > 2 && st.[1] = '+' && Char.code st.[0] - 48 = d
          then String.sub st 2 (String.length st - 2) else acc) "" steps in
      nconn.(d) <- String.length modes + 1
    done;
    let removed = Array.make 10 false in
    List.iteri (fun i st ->
        let di = Char.code st.[0] - 48 in
        let d = n_of_int di in
        (* d@<phase><kind><variant>: the same message, sent while the connection is being set up *)
        let kind, vs = if st.[1] = '@' then st.[3], String.sub st 4 (String.length st - 4)
          else st.[1], String.sub st 2 (String.length st - 2) in
        let v = (try int_of_string vs with _ -> 0) in
        let newconn () =
          let n = nconn.(di) in nconn.(di) <- n + 1;
          Recv (d, MReaderEventNotification, Some (n_of_int (2000 + 100 * di + n)), true) in
        if not removed.(di) then begin
          let e = match kind with
            | 'R' | 'M' -> Recv (d, MROAccessReport, Some (n_of_int i), false)
            | 'E' -> Recv (d, MReaderEventNotification, Some (n_of_int i), v = 4)
            | 'L' | 'r' -> Recv (d, MROAccessReport, None, false)
            | 'e' -> Recv (d, MReaderEventNotification, None, false)
            | 'K' -> KeepAliveAck d
            | 'C' | 'T' | 'G' | 'P' -> Command d
            | 'F' -> KeepAliveAck d                                     (* receive side stalled, keep-alives *)
            | 'U' -> if v mod 2 = 1 then newconn () else Command d   (* moved to its other address: reconnects *)
            | 'X' -> newconn ()                                      (* outage: reconnects *)
            | 'Z' -> removed.(di) <- true; Command d                 (* removed: nothing more from it *)
            | '+' -> KeepAliveAck d   (* handled above *)
            | _ -> failwith ("bad step " ^ st) in
          recvs := e :: !recvs
        end) steps;
    let recvs = List.rev !recvs in
    (* interleave publisher completions *)
    let s = ref init in
    let evs = ref [] in
    List.iter (fun e ->
        s := step !s e; evs := e :: !evs;
        while Random.int 3 = 0 && pending !s <> [] do
          let k = Random.int (List.length (pending !s)) in
          let e = PublisherRun (nat_of_int k) in
          s := step !s e; evs := e :: !evs
        done) recvs;
    let dr = drain !s in
    let s2 = run !s dr in
    let pub = List.sort compare (List.map reading_s (published s2)) in
    let exp = List.sort compare (List.map reading_s (expected (List.rev !evs))) in
    Printf.printf "%d %s | pending=%d expected_ok=%s\n" (List.length pub) (String.concat " " pub)
      (List.length (pending s2)) (if pub = exp then "1" else "0")
  | _ -> print_endline "error: bad scenario"

let () =
  try
    while true do
      let line = String.trim (input_line stdin) in
      (match List.filter (fun x -> x <> "") (String.split_on_char ' ' line) with
       | [] -> ()
       | toks -> (try scenario toks with Failure m -> print_endline ("error: " ^ m)));
      flush stdout
    done
  with End_of_file -> ()
