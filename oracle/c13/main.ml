(* line protocol (oracle/c13): one scenario per line
     <id> <ndev> <seed> <step> ...
   steps (device index d = one digit): dR<v> ROAccessReport variant v, dE<v> ReaderEventNotification
   variant v (v mod 14 = 4 or 11: a successful ConnectionAttemptEvent in mid-stream), dr<v>/de<v> undecodable
   report/event, dM/dL a large report under/over the 640 KiB buffer limit (over: refused like an undecodable one), dK keep-alive, dC<k> command through the driver.
   Every device first receives the connection event of each of its connections (d+<modes> steps: failing
   connections before the normal one; content 2000+100d+n). dT<k>: a request with a deadline (a Command). d@<p><kind><v>: message sent during connection
   set-up (phase p). dU0/dU1: EdgeX updates the device (same / other address: reconnect, a new connection
   event). dX: outage, reconnect. dZ: the device is removed, its later steps are void. The content of step i is i.
   d~<flags>: d the device is registered DOWN when the service starts (its operating-state flag starts
   false), f the SDK's UpdateDeviceOperatingState(Up) fails, g the one with Down fails (other flags concern the
   reader / the timing of the SDK only). dH: the held SDK calls return (a Command here: SDK returns are
   interleaved at random anyway). dY: an outage with refused connections: the device is marked DOWN, then
   reconnects. dQ<e><c><kind><v>: a message is begun and its connection ends after a part (RecvCut; the part
   is given as decodable when c = 2), then the device reconnects.
   The model (Driver/Publish.v, extracted) is run on these events with the decoder "payload [i; ok; conn] decodes
   iff ok = 1, to 2i+conn", publisher progress (OnConnectStart / SdkReturn / PublisherRun) interleaved at random
   (seeded), then drained. answer: "<n> d:RO:i d:REN:i ..." (sorted) "| pending=<n> expected_ok=<0|1> sdk_up=<n>" *)
open Model

let rec pos_of_int (n:int) : positive =
  if n = 1 then XH else if n land 1 = 0 then XO (pos_of_int (n lsr 1)) else XI (pos_of_int (n lsr 1))
let n_of_int (n:int) : n = if n = 0 then N0 else Npos (pos_of_int n)
let rec int_of_pos = function XH -> 1 | XO p -> 2 * int_of_pos p | XI p -> 2 * int_of_pos p + 1
let int_of_n = function N0 -> 0 | Npos p -> int_of_pos p
let rec nat_of_int n = if n <= 0 then O else S (nat_of_int (n - 1))
let rec int_of_nat = function O -> 0 | S n -> 1 + int_of_nat n

(* the decoder of the abstract payloads *)
let dec (_ : mtype) (bs : n list) : n option =
  match bs with
  | [i; ok; conn] when int_of_n ok = 1 -> Some (n_of_int (2 * int_of_n i + int_of_n conn))
  | _ -> None
let is_conn (c : n) : bool = int_of_n c land 1 = 1
let payload i ok conn = [n_of_int i; n_of_int (if ok then 1 else 0); n_of_int (if conn then 1 else 0)]

let step = step dec is_conn
let run = run dec is_conn
let expected = expected dec

let reading_s ((d, r), c) =
  Printf.sprintf "%d:%s:%d" (int_of_n d) (match r with ResROAccessReport -> "RO" | ResReaderEventNotification -> "REN") (int_of_n c / 2)

let flags_of steps d =
  List.fold_left (fun acc st ->
      if String.length st > 2 && st.[1] = '~' && Char.code st.[0] - 48 = d
      then acc ^ String.sub st 2 (String.length st - 2) else acc) "" steps

let scenario toks =
  match toks with
  | _id :: ndev :: seed :: steps ->
    let ndev = int_of_string ndev in
    Random.init (int_of_string seed);
    let clock = ref 0 in
    let now () = incr clock; n_of_int (1000 + 7 * !clock) in
    let recvs = ref [] in
    let flags = Array.init 10 (fun d -> flags_of steps d) in
    let up0 d = not (String.contains flags.(int_of_n d) 'd') in
    (* connection events: one per planned connection (d+<modes>: one failing connection per
       character, then the normal one), content 2000+100d+n *)
    for d = 0 to ndev - 1 do
      let modes = List.fold_left (fun acc st ->
          if String.length st > 2 && st.[1] = '+' && Char.code st.[0] - 48 = d
          then String.sub st 2 (String.length st - 2) else acc) "" steps in
      for n = 0 to String.length modes do
        (* the first message of connection n: a connection event (successful, or for modes 1-4 one
           that reports a failed attempt, n: an event without ConnectionAttemptEvent), or (o) a report *)
        let m = if n < String.length modes then modes.[n] else ' ' in
        let typ = if m = 'o' then MROAccessReport else MReaderEventNotification in
        let success = not (String.contains "1234no" m) in
        recvs := Recv (n_of_int d, typ, payload (2000 + 100 * d + n) true success, now ()) :: !recvs
      done
    done;
    let nconn = Array.make 10 0 in
    for d = 0 to ndev - 1 do
      let modes = List.fold_left (fun acc st ->
          if String.length st > 2 && st.[1] = '+' && Char.code st.[0] - 48 = d
          then String.sub st 2 (String.length st - 2) else acc) "" steps in
      nconn.(d) <- String.length modes + 1
    done;
    let removed = Array.make 10 false in
    List.iteri (fun i st ->
        let di = Char.code st.[0] - 48 in
        let d = n_of_int di in
        (* d@<phase><kind><variant>: the same message, sent while the connection is being set up *)
        let kind, vs = if st.[1] = '@' then st.[3], String.sub st 4 (String.length st - 4)
          else if st.[1] = 'Q' then 'Q', String.sub st 5 (String.length st - 5)
          else st.[1], String.sub st 2 (String.length st - 2) in
        let v = (try int_of_string vs with _ -> 0) in
        let newconn () =
          let n = nconn.(di) in nconn.(di) <- n + 1;
          Recv (d, MReaderEventNotification, payload (2000 + 100 * di + n) true true, now ()) in
        if not removed.(di) then begin
          let es = match kind with
            | 'R' | 'M' -> [Recv (d, MROAccessReport, payload i true false, now ())]
            | 'E' -> [Recv (d, MReaderEventNotification, payload i true (v mod 14 = 4 || v mod 14 = 11), now ())]
            | 'L' | 'r' -> [Recv (d, MROAccessReport, payload i false false, now ())]
            | 'e' -> [Recv (d, MReaderEventNotification, payload i false false, now ())]
            | 'K' -> [KeepAliveAck d]
            | 'C' | 'T' | 'G' | 'P' | 'H' -> [Command d]
            | 'F' -> [KeepAliveAck d]                                     (* receive side stalled, keep-alives *)
            | 'U' -> if v mod 2 = 1 then [newconn ()] else [Command d]   (* moved to its other address: reconnects *)
            | 'X' -> [newconn ()]                                      (* outage: reconnects *)
            | 'Y' -> [MarkDown (d, not (String.contains flags.(di) 'g')); newconn ()]
            | 'Q' ->
              let typ = if st.[4] = 'R' then MROAccessReport else MReaderEventNotification in
              [RecvCut (d, typ, payload i (st.[3] = '2') false, nat_of_int (1 + v), now ()); newconn ()]
            | 'Z' -> removed.(di) <- true; [Command d]                 (* removed: nothing more from it *)
            | '+' | '~' -> []   (* handled above *)
            | _ -> failwith ("bad step " ^ st) in
          recvs := List.rev_append es !recvs
        end) steps;
    let recvs = List.rev !recvs in
    (* interleave the progress of publishers: entering onConnect, SDK calls returning (with the
       outcome scripted for the device), channel sends *)
    let s = ref (init_up up0) in
    let evs = ref [] in
    let sdk_ok x = let ((d, _), _) = x in not (String.contains flags.(int_of_n d) 'f') in
    let progress () =
      let st = List.length (starting !s) and pk = List.length (parked !s) and pd = List.length (pending !s) in
      if st + pk + pd > 0 then begin
        let k = Random.int (st + pk + pd) in
        let e =
          if k < st then OnConnectStart (nat_of_int k)
          else if k < st + pk then SdkReturn (nat_of_int (k - st), sdk_ok (List.nth (parked !s) (k - st)))
          else PublisherRun (nat_of_int (k - st - pk)) in
        s := step !s e; evs := e :: !evs
      end in
    List.iter (fun e ->
        s := step !s e; evs := e :: !evs;
        while Random.int 3 = 0 && inflight !s <> [] do progress () done) recvs;
    let sdk_up_before = int_of_nat (sdk_up_calls !s) in
    let dr = drain (Random.bool ()) !s in
    let s2 = run !s dr in
    let pub = List.sort compare (List.map reading_s (published s2)) in
    let exp = List.sort compare (List.map reading_s (expected (List.rev !evs))) in
    (* the same messages received at other times give the same run *)
    let s3 = run (init_up up0) (List.map (retime (fun _ -> N0)) (List.rev_append !evs dr)) in
    let same = List.map reading_s (published s3) = List.map reading_s (published s2) in
    Printf.printf "%d %s | pending=%d expected_ok=%s sdk_up=%d\n" (List.length pub) (String.concat " " pub)
      (List.length (inflight s2)) (if pub = exp && same then "1" else "0") sdk_up_before
  | _ -> print_endline "error: bad scenario"

let () =
  try
    while true do
      let line = String.trim (input_line stdin) in
      (match List.filter (fun x -> x <> "") (String.split_on_char ' ' line) with
       | [] -> ()
       | toks -> (try scenario toks with Failure m -> print_endline ("error: " ^ m)));
      flush stdout
    done
  with End_of_file -> ()
