From Coq Require Import ExtrOcamlBasic NArith List.
From LLRP Require Import Driver.Publish.
Extraction Language OCaml.
Extraction "model.ml" init step run expected drain pending published onconnects resource_of.
