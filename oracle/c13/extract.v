From Coq Require Import ExtrOcamlBasic NArith List.
From LLRP Require Import Driver.Publish.
Extraction Language OCaml.
Extraction "model.ml" init init_up step run expected drain inflight starting parked pending published
  isup onconnects sdk_up_calls resource_of conn_reading retime.
