(* line protocol (one answer line per request line):
   name <vendor> <model> <idtype> <ridhex|-> <fwhex|-> <caps:0|1> <ident:0|1>
        -> "ok name=<hex> v=<n> m=<n> fw=<hex|->"  |  "none"
   run <dl> <dial> <rd|-> <send> <fc:0|1> <idle:0|1> P <scanport> D <n> {<host> <port|0=no address> <up|down|unknown> <namehex>}*n
                                 H <k> {<addr> <behaviour> <vendor> <model> <idtype> <ridhex|->}*k
                                 W <w> {<len> <addr>*len}*w
        -> "probed=<a,..> reported=<namehex@a,..> discovered=<namehex@a,..> time=<n|never>"
        behaviours: refuse unreachable silent garbage stallneg stallex noclose answer noident
        (firmware of every answering host is "1.2.3"), or a script
          script:d=<r|n|delay>:h=<ans>:v=<ans>:sv=<ans|n>:c=<ans>:id=<0|1>:k=<ans>:x=<ans>:xo=<0|1>:fin=<0|1>:hg=<t|->:chat=<t_t_..|->:p=<period|->
          <ans> = <delay>+ (positive answer) | <delay>- (negative answer) | - (none) | <gap>~ (trickled, never complete);  sv=n: no SET_PROTOCOL_VERSION
        fc: the request goroutine closes the client after a failed Shutdown; idle: the read deadline is re-armed before every read
   conf <cfg> {D:<cfg> | X | R}*      cfg = <subnets hex|->/<async>/<probe_s>/<port>/<max_s>
        a history: start-up configuration, then deliveries (D), deliveries of another type (X), runs (R)
        -> "inforce=<cfg> deadline=<ms|none> used=<cfg,..  oldest run first>" *)
open Model

let rec pos_of_int (n:int) : positive =
  if n = 1 then XH else if n land 1 = 0 then XO (pos_of_int (n lsr 1)) else XI (pos_of_int (n lsr 1))
let n_of_int (n:int) : n = if n = 0 then N0 else Npos (pos_of_int n)
let rec int_of_pos = function XH -> 1 | XO p -> 2 * int_of_pos p | XI p -> 2 * int_of_pos p + 1
let int_of_n = function N0 -> 0 | Npos p -> int_of_pos p

let bytes_of_hex s =
  if s = "-" then [] else
    List.init (String.length s / 2) (fun i -> n_of_int (int_of_string ("0x" ^ String.sub s (2 * i) 2)))
let hex_of_codes l =
  if l = [] then "-" else String.concat "" (List.map (fun c -> Printf.sprintf "%02x" (int_of_n c)) l)
let codes_of_string s = List.init (String.length s) (fun i -> n_of_int (Char.code s.[i]))

let fw_default = codes_of_string "1.2.3"

let answer_of s =
  if s = "-" then NoAns else
    let n = String.length s in
    if s.[n - 1] = '~' then Trickle (n_of_int (int_of_string (String.sub s 0 (n - 1)))) else
    Ans (n_of_int (int_of_string (String.sub s 0 (n - 1))), s.[n - 1] = '+')

let script_of spec caps ident =
  let kv = List.filter_map (fun f -> match String.index_opt f '=' with
      | Some i -> Some (String.sub f 0 i, String.sub f (i + 1) (String.length f - i - 1)) | None -> None)
      (String.split_on_char ':' spec) in
  let get k = try List.assoc k kv with Not_found -> failwith ("script: missing " ^ k) in
  let optn s = if s = "-" then None else Some (n_of_int (int_of_string s)) in
  { s_dial = (match get "d" with "r" -> DialRefused | "n" -> DialNever | d -> DialAccept (n_of_int (int_of_string d)));
    s_hello = answer_of (get "h"); s_version = answer_of (get "v");
    s_setver = (if get "sv" = "n" then None else Some (answer_of (get "sv")));
    s_config = answer_of (get "c"); s_ident = (if get "id" = "1" then ident else None);
    s_caps = answer_of (get "k"); s_capsv = caps;
    s_close = answer_of (get "x"); s_close_other = (get "xo" = "1"); s_fin = (get "fin" = "1");
    s_hangup = optn (get "hg");
    s_chat = (if get "chat" = "-" then [] else List.map (fun x -> n_of_int (int_of_string x)) (String.split_on_char '_' (get "chat")));
    s_period = optn (get "p") }

let behaviour_of name v m t rid =
  let caps = Some ((v, m), fw_default) in
  if String.length name > 7 && String.sub name 0 7 = "script:" then
    Script (script_of (String.sub name 7 (String.length name - 7)) caps (Some (t, rid))) else
  match name with
  | "refuse" -> Refuse | "unreachable" -> Unreachable | "silent" -> Silent | "garbage" -> Garbage
  | "stallneg" -> StallNegotiate | "stallex" -> StallExchange
  | "noclose" -> AnswerNoClose (caps, Some (t, rid))
  | "answer" -> Answer (caps, Some (t, rid))
  | "noident" -> Answer (caps, None)
  | _ -> failwith ("bad behaviour " ^ name)

let () =
  try
    while true do
      let line = input_line stdin in
      let toks = List.filter (fun s -> s <> "") (String.split_on_char ' ' (String.trim line)) in
      (match toks with
       | ["name"; v; m; t; rid; fw; caps; ident] ->
         let caps = if caps = "1" then Some ((n_of_int (int_of_string v), n_of_int (int_of_string m)), bytes_of_hex fw) else None in
         let ident = if ident = "1" then Some (n_of_int (int_of_string t), bytes_of_hex rid) else None in
         (match probe_info caps ident with
          | None -> print_endline "none"
          | Some i -> Printf.printf "ok name=%s v=%d m=%d fw=%s\n" (hex_of_codes i.i_name) (int_of_n i.i_vendor)
                        (int_of_n i.i_model) (hex_of_codes i.i_fw))
       | "run" :: dl :: dial :: rd :: send :: fc :: idle :: "P" :: sport :: "D" :: rest ->
         let a = Array.of_list rest in
         let pos = ref 0 in
         let next () = let x = a.(!pos) in incr pos; x in
         let nd = int_of_string (next ()) in
         let devs = List.init nd (fun _ ->
             let addr = n_of_int (int_of_string (next ())) in
             let port = int_of_string (next ()) in
             let st = (match next () with "up" -> Up | "down" -> Down | _ -> UnknownState) in
             let name = bytes_of_hex (next ()) in
             { d_name = name; d_addr = (if port = 0 then None else Some (addr, n_of_int port)); d_state = st }) in
         if next () <> "H" then failwith "expected H";
         let nh = int_of_string (next ()) in
         let tbl = Hashtbl.create 16 in
         for _ = 1 to nh do
           let addr = int_of_string (next ()) in
           let b = next () in
           let v = n_of_int (int_of_string (next ())) in
           let m = n_of_int (int_of_string (next ())) in
           let t = n_of_int (int_of_string (next ())) in
           let rid = bytes_of_hex (next ()) in
           Hashtbl.replace tbl addr (behaviour_of b v m t rid)
         done;
         let hosts x = (match Hashtbl.find_opt tbl (int_of_n x) with Some b -> b | None -> Refuse) in
         if next () <> "W" then failwith "expected W";
         let nw = int_of_string (next ()) in
         let work = List.init nw (fun _ ->
             let len = int_of_string (next ()) in
             List.init len (fun _ -> n_of_int (int_of_string (next ())))) in
         let tm = { dial = n_of_int (int_of_string dial);
                    read_deadline = (if rd = "-" then None else Some (n_of_int (int_of_string rd)));
                    send_timeout = n_of_int (int_of_string send); force_close = (fc = "1"); idle_deadline = (idle = "1") } in
         let dl = n_of_int (int_of_string dl) in
         let dm = make_device_map devs in
         let sport = n_of_int (int_of_string sport) in
         let probed = List.sort compare (List.map int_of_n (run_probed tm dl dm sport hosts work)) in
         let rep = run_reported tm dl dm sport hosts work in
         let show l = String.concat "," (List.sort compare
                                           (List.map (fun (a, i) -> hex_of_codes i.i_name ^ "@" ^ string_of_int (int_of_n a)) l)) in
         Printf.printf "probed=%s reported=%s discovered=%s time=%s\n"
           (String.concat "," (List.map string_of_int probed)) (show rep) (show (discovered devs rep))
           (match run_time tm dl dm sport hosts work with None -> "never" | Some t -> string_of_int (int_of_n t))
       | "conf" :: c0 :: evs ->
         let cfg_of s = (match String.split_on_char '/' s with
             | [sn; a; p; po; mx] -> { c_subnets = bytes_of_hex sn; c_async = n_of_int (int_of_string a); c_probe_s = n_of_int (int_of_string p);
                                      c_port = n_of_int (int_of_string po); c_max_s = n_of_int (int_of_string mx) }
             | _ -> failwith ("bad config " ^ s)) in
         let show c = Printf.sprintf "%s/%d/%d/%d/%d" (hex_of_codes c.c_subnets) (int_of_n c.c_async) (int_of_n c.c_probe_s)
             (int_of_n c.c_port) (int_of_n c.c_max_s) in
         let ev_of s = if s = "X" then DeliverOther else if s = "R" then Discover
           else if String.length s > 2 && String.sub s 0 2 = "D:" then Deliver (cfg_of (String.sub s 2 (String.length s - 2)))
           else failwith ("bad event " ^ s) in
         let st = crun (cfg_of c0) (List.map ev_of evs) in
         Printf.printf "inforce=%s deadline=%s used=%s\n" (show st.in_force)
           (match run_deadline st.in_force with None -> "none" | Some d -> string_of_int (int_of_n d))
           (String.concat "," (List.rev_map show st.used))
       | [] -> ()
       | _ -> print_endline ("error: bad request: " ^ line))
    done
  with End_of_file -> ()
