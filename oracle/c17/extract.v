From Coq Require Import ExtrOcamlBasic String Ascii NArith List.
From LLRP Require Import Discover.Naming Discover.Run Discover.Config.
Extraction Language OCaml.
Extraction "model.ml" device_name probe_info prefix suffix hex_lower unhex unhex_digit_lower
  make_device_map skip probe_result probe_time script_outcome allowance worker_run run_time run_reported run_probed
  discovered crun last_delivered run_deadline go_timers N.of_nat N.to_nat.
