From Coq Require Import ExtrOcamlBasic NArith.
From LLRP Require Import Client.Stream Client.Hostile.
Extraction Language OCaml.
Extraction "model.ml" serve st0 frame_bytes check_initial caller_handed serve_stall.
