(* line protocol (one request per line, one answer line):
     run <maxbuf> <handlers> <default> <neverreply> <awaiting> <env> <hexstream>
       handlers  comma separated message types with a MessageHandler, or -
       default   0|1
       neverreply comma separated message types that are never looked up in c.awaiting, or -
       awaiting  comma separated ids in c.awaiting at the start, or -
       env       ';'-separated entries  <ids registered before this lookup or ->/<r|p|pe|pr|po>/<k>  (p.. = panic with a string / error / runtime.Error / other value)
                 optionally followed by /1: this client has sent CloseConnection (a CloseConnectionResponse
                 then announces the orderly end of the stream)
                 (entry j belongs to the j-th header read; beyond the list: -/r/0 with the last entry's flag), or -
       hexstream the inbound bytes ("-" = empty)
   answer:  one field per dispatch record
       <ver>,<typ>,<len>,<id>|<reply>|<handler>|<discarded 0/1>|<alloc>
         reply   = - | B:<len>:<md5> | H | T
         handler = - | <T|D>:<buffered 0/1>:<offered len>:<md5>:<consumed>:<panicked 0/1>
     then END=<ending> REST=<len>:<md5> *)
open Model

let rec pos_of_int (n:int) : positive =
  if n = 1 then XH else if n land 1 = 0 then XO (pos_of_int (n lsr 1)) else XI (pos_of_int (n lsr 1))
let n_of_int (n:int) : n = if n = 0 then N0 else Npos (pos_of_int n)
let rec int_of_pos = function XH -> 1 | XO p -> 2 * int_of_pos p | XI p -> 2 * int_of_pos p + 1
let int_of_n = function N0 -> 0 | Npos p -> int_of_pos p
let rec int_of_nat = function O -> 0 | S n -> 1 + int_of_nat n

let default_close = ref false
let cur_maxbuf = ref N0
let byte_tab = Array.init 256 n_of_int

let hexval c = match c with
  | '0'..'9' -> Char.code c - 48 | 'a'..'f' -> Char.code c - 87 | 'A'..'F' -> Char.code c - 55
  | _ -> failwith "hex"

let bytes_of_hex (s:string) : n list =
  if s = "-" then [] else begin
    let n = String.length s / 2 in
    let r = ref [] in
    for i = n - 1 downto 0 do
      r := byte_tab.(hexval s.[2*i] * 16 + hexval s.[2*i+1]) :: !r
    done; !r end

let md5 (l : n list) : string =
  let n = List.length l in
  let b = Bytes.create n in
  List.iteri (fun i x -> Bytes.set b i (Char.chr (int_of_n x land 255))) l;
  string_of_int n ^ ":" ^ Digest.to_hex (Digest.bytes b)

let ints s = if s = "-" || s = "" then [] else List.map int_of_string (String.split_on_char ',' s)

let ending_s = function
  | EndEOF -> "eof" | EndShortHeader -> "short-header" | EndBadHeader -> "bad-header"
  | EndShortDiscard -> "short-discard" | EndWaitClose -> "wait-close" | EndOutOfFuel -> "OUT-OF-FUEL"

let b01 b = if b then "1" else "0"

let dispatch_s d =
  let h = d.d_hdr in
  let rep = match d.d_reply with
    | None -> "-" | Some (RBuffered p) -> "B:" ^ md5 p | Some RHeaderOnly -> "H" | Some RTruncated -> "T" in
  let hd = match d.d_handler with
    | None -> "-"
    | Some c -> (match c.hc_who with TypeHandler -> "T" | DefaultHandler -> "D") ^ ":" ^ b01 c.hc_buffered
                ^ ":" ^ md5 c.hc_offered ^ ":" ^ string_of_int (int_of_n c.hc_consumed) ^ ":" ^ b01 c.hc_panicked in
  let handed = match caller_handed !cur_maxbuf true d with
    | None -> "-" | Some None -> "E"
    | Some (Some (t, data)) -> "D:" ^ string_of_int (int_of_n t) ^ ":" ^ md5 data in
  Printf.sprintf "%d,%d,%d,%d|%s|%s|%s|%d|%s" (int_of_n h.h_ver) (int_of_n h.h_typ) (int_of_n h.h_len) (int_of_n h.h_id)
    rep hd (b01 d.d_discarded) (int_of_n d.d_alloc) handed

let () =
  try
    while true do
      let line = input_line stdin in
      (match String.split_on_char ' ' (String.trim line) with
       | "stall" :: maxbuf :: hs :: df :: nr :: aw :: env :: hex :: off :: ign :: [] ->
         let hl = ints hs in
         let nrl = ints nr in
         let cfg = { has_handler = (fun t -> List.mem (int_of_n t) hl); has_default = (df = "1");
                     never_reply = (fun t -> List.mem (int_of_n t) nrl) } in
         let entries = if env = "-" then [||] else
             Array.of_list (List.map (fun e ->
                 match String.split_on_char '/' e with
                 | regs :: kind :: k :: more ->
                   let k = n_of_int (int_of_string k) in
                   { e_register = List.map n_of_int (ints regs); e_beh = (match kind with "p" -> HPanic (k, PvString) | "pe" -> HPanic (k, PvError) | "pr" -> HPanic (k, PvRuntimeError) | "po" -> HPanic (k, PvOther) | _ -> HRead k) ; e_close_sent = (more = ["1"]) }
                 | _ -> failwith "env") (String.split_on_char ';' env)) in
         let envf (i : nat) =
           let i = int_of_nat i in
           if i < Array.length entries then entries.(i) else { e_register = []; e_beh = HRead N0; e_close_sent = false } in
         let st = { s_aw = List.map n_of_int (ints aw); s_closed_seen = false } in
         let all = bytes_of_hex hex in
         let off = int_of_string off in
         let rec split k l acc = if k = 0 then (List.rev acc, l) else (match l with [] -> (List.rev acc, []) | x :: r -> split (k - 1) r (x :: acc)) in
         let (before, after) = split off all [] in
         cur_maxbuf := n_of_int (int_of_string maxbuf);
         let log = serve_stall !cur_maxbuf cfg (ign = "1") st envf before after in
         List.iter (fun d -> print_string (dispatch_s d); print_char ' ') log;
         print_endline "END=stall REST=0:-"
       | ["run"; maxbuf; hs; df; nr; aw; env; hex] ->
         let hl = ints hs in
         let nrl = ints nr in
         let cfg = { has_handler = (fun t -> List.mem (int_of_n t) hl); has_default = (df = "1");
                     never_reply = (fun t -> List.mem (int_of_n t) nrl) } in
         default_close := false;
         let entries = if env = "-" then [||] else
             Array.of_list (List.map (fun e ->
                 match String.split_on_char '/' e with
                 | regs :: kind :: k :: more ->
                   let k = n_of_int (int_of_string k) in
                   { e_register = List.map n_of_int (ints regs); e_beh = (match kind with "p" -> HPanic (k, PvString) | "pe" -> HPanic (k, PvError) | "pr" -> HPanic (k, PvRuntimeError) | "po" -> HPanic (k, PvOther) | _ -> HRead k) ; e_close_sent = (more = ["1"]) }
                 | _ -> failwith "env") (String.split_on_char ';' env)) in
         if Array.length entries > 0 then default_close := entries.(Array.length entries - 1).e_close_sent;
         let envf (i : nat) =
           let i = int_of_nat i in
           if i < Array.length entries then entries.(i) else { e_register = []; e_beh = HRead N0; e_close_sent = !default_close } in
         let st = { s_aw = List.map n_of_int (ints aw); s_closed_seen = false } in
         cur_maxbuf := n_of_int (int_of_string maxbuf);
         let r = serve !cur_maxbuf cfg st envf (bytes_of_hex hex) in
         List.iter (fun d -> print_string (dispatch_s d); print_char ' ') r.r_log;
         Printf.printf "END=%s REST=%s\n" (ending_s r.r_end) (md5 r.r_rest)
       | ["first"; maxbuf; hs; df; offers_default; hex] ->
         (* checkInitialMessage on the first frame: who is it offered to?  answer: called=<0|1> res=<ok|err> alloc=<n> *)
         let hl = ints hs in
         let cfg = { has_handler = (fun t -> List.mem (int_of_n t) hl); has_default = (df = "1");
                     never_reply = (fun _ -> false) } in
         let fl = { data_checks_size_first = true; gsv_uses_checked_read = true; neg_aborts_on_loop_end = true;
                    close_wait_only_if_sent = true; first_offers_default = (offers_default = "1") } in
         (* the decoder outcome does not influence who is offered the message: any total decoder will do *)
         let dd = { dec_ren = (fun _ -> DErr); dec_errmsg = (fun _ -> DErr); dec_gsvresp = (fun _ -> DErr);
                    dec_spvresp = (fun _ -> DErr); dec_ccr = (fun _ -> DErr); dec_llrpstatus = (fun _ -> DErr) } in
         let ci = check_initial (n_of_int (int_of_string maxbuf)) cfg fl dd (bytes_of_hex hex) in
         Printf.printf "called=%s alloc=%d\n" (b01 ci.ci_handler_called) (int_of_n ci.ci_alloc)
       | [""] -> ()
       | _ -> print_endline "error: bad request")
    done
  with End_of_file -> ()
