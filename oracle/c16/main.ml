(* line protocol:  gen <addr> <p>            -> count, then all addresses (one line, space separated)
                   sum <addr> <p>            -> "<count> <first> <last> <xor-sum>"   (full enumeration)
                   nth <addr> <p> <k>        -> address or "none"
                   sz <p>                    -> computeNetSz
                   all <a1> <p1> <a2> <p2> .. -> "<estimate> <count> <sorted addresses>" of discover_all / estimate
                   ents (v4 <a> <p> | v6 <p128> | bad)* -> the same of discover_entries / estimate_entries false
                        (the configured list as autoDiscover reads it: refused and malformed entries included) *)
open Model

let rec pos_of_int (n:int) : positive =
  if n = 1 then XH else if n land 1 = 0 then XO (pos_of_int (n lsr 1)) else XI (pos_of_int (n lsr 1))
let n_of_int (n:int) : n = if n = 0 then N0 else Npos (pos_of_int n)
let rec int_of_pos = function XH -> 1 | XO p -> 2 * int_of_pos p | XI p -> 2 * int_of_pos p + 1
let int_of_n = function N0 -> 0 | Npos p -> int_of_pos p

let () =
  try
    while true do
      let line = input_line stdin in
      (match String.split_on_char ' ' (String.trim line) with
       | ["gen"; a; p] ->
         let l = ip_gen (n_of_int (int_of_string a)) (n_of_int (int_of_string p)) in
         print_string (string_of_int (List.length l));
         List.iter (fun x -> print_char ' '; print_string (string_of_int (int_of_n x))) l;
         print_newline ()
       | ["rawgen"; a; p] ->
         let l = ip_gen_raw (n_of_int (int_of_string a)) (n_of_int (int_of_string p)) in
         print_string (string_of_int (List.length l));
         List.iter (fun x -> print_char ' '; print_string (string_of_int (int_of_n x))) l;
         print_newline ()
       | ["sum"; a; p] ->
         let l = ip_gen (n_of_int (int_of_string a)) (n_of_int (int_of_string p)) in
         let (cnt, first, last, xs) = List.fold_left (fun (c, f, _, acc) x ->
             let x = int_of_n x in
             (c + 1, (if c = 0 then x else f), x, (acc * 31 + x) land 0xFFFFFFFFFFFF)) (0, -1, -1, 0) l in
         Printf.printf "%d %d %d %d\n" cnt first last xs
       | ["nth"; a; p; k] ->
         (match ip_gen_nth (n_of_int (int_of_string a)) (n_of_int (int_of_string p)) (n_of_int (int_of_string k)) with
          | None -> print_endline "none"
          | Some x -> print_endline (string_of_int (int_of_n x)))
       | "all" :: rest ->
         (* all a1 p1 a2 p2 ... -> "<estimate> <count> <addresses, sorted>" *)
         let rec pairs = function
           | a :: p :: r -> (n_of_int (int_of_string a), n_of_int (int_of_string p)) :: pairs r
           | _ -> [] in
         let nets = pairs rest in
         let l = List.sort compare (List.rev (List.rev_map int_of_n (discover_all nets))) in
         print_string (string_of_int (int_of_n (estimate nets)));
         print_char ' '; print_string (string_of_int (List.length l));
         List.iter (fun x -> print_char ' '; print_string (string_of_int x)) l;
         print_newline ()
       | "ents" :: rest ->
         let rec ents = function
           | "v4" :: a :: p :: r -> EV4 (n_of_int (int_of_string a), n_of_int (int_of_string p)) :: ents r
           | "v6" :: p :: r -> EV6 (n_of_int (int_of_string p)) :: ents r
           | "bad" :: r -> EBad :: ents r
           | _ -> [] in
         let es = ents rest in
         let l = List.sort compare (List.rev (List.rev_map int_of_n (discover_entries es))) in
         print_string (string_of_int (int_of_n (estimate_entries false es)));
         print_char ' '; print_string (string_of_int (List.length l));
         List.iter (fun x -> print_char ' '; print_string (string_of_int x)) l;
         print_newline ()
       | ["sz"; p] -> print_endline (string_of_int (int_of_n (compute_net_sz (n_of_int (int_of_string p)))))
       | [""] -> ()
       | _ -> print_endline ("error: bad request: " ^ line))
    done
  with End_of_file -> ()
