From Coq Require Import ExtrOcamlBasic NArith.
From LLRP Require Import Discover.Subnet Discover.Entries.
Extraction Language OCaml.
Extraction "model.ml" ip_gen ip_gen_raw ip_gen_nth ip_gen_count compute_net_sz discover_all estimate estimate_entries discover_entries net_id bcast N.of_nat N.to_nat.
